package main

// R-map-order, part 2: effects and exits of one loop body, shape decision.

import (
	"fmt"
	"go/ast"
	"go/constant"
	"go/token"
	"go/types"
	"sort"
	"strings"

	"golang.org/x/tools/go/packages"
	"golang.org/x/tools/go/ssa"
)

type moEffect struct {
	class   string // keyed | diag | constflag | accum | append | replace | other
	target  string // display text
	sig     string // coarse, rename-stable description for the reviewed table
	obj     types.Object
	keyedOn string
	stmt    ast.Stmt // statement carrying the effect
	guard   *ast.IfStmt
	pos     token.Pos
	why     string
	callee  string // for effects of a call: the callee, and what it touches
	item    string
}

type moExit struct {
	kind    string // return | break | outer
	stmt    ast.Stmt
	guard   *ast.IfStmt
	uniform bool
	text    string
	block   []ast.Stmt // statement list containing the exit
	idx     int
}

type moScan struct {
	l       *moLoop
	a       *dmAnalysis
	effects []moEffect
	exits   []moExit
	pruned  []string
	undec   []string
	diagT   types.Type
	c       *Ctx
}

type moCtx struct {
	breakDepth int // enclosing breakable statements inside the loop body
	guard      *ast.IfStmt
	labels     map[string]bool // labels declared inside the body
	block      []ast.Stmt
	idx        int
	curStmt    ast.Stmt
}

func (s *moScan) info() *types.Info { return s.l.info }

func (s *moScan) add(e moEffect) { s.effects = append(s.effects, e) }

func (s *moScan) stmts(list []ast.Stmt, cx moCtx) {
	for i, st := range list {
		c2 := cx
		c2.block, c2.idx = list, i
		s.stmt(st, c2)
	}
}

func (s *moScan) stmt(st ast.Stmt, cx moCtx) {
	cx.curStmt = st
	switch x := st.(type) {
	case nil:
	case *ast.BlockStmt:
		s.stmts(x.List, cx)
	case *ast.LabeledStmt:
		if cx.labels == nil {
			cx.labels = map[string]bool{}
		} else {
			m := map[string]bool{}
			for k := range cx.labels {
				m[k] = true
			}
			cx.labels = m
		}
		cx.labels[x.Label.Name] = true
		s.stmt(x.Stmt, cx)
	case *ast.ExprStmt:
		s.expr(x.X, cx)
	case *ast.AssignStmt:
		s.assign(x, cx)
	case *ast.IncDecStmt:
		s.write(x.X, nil, token.ADD_ASSIGN, st, cx)
	case *ast.DeclStmt:
		if gd, ok := x.Decl.(*ast.GenDecl); ok {
			for _, sp := range gd.Specs {
				if vs, ok := sp.(*ast.ValueSpec); ok {
					for _, v := range vs.Values {
						s.expr(v, cx)
					}
				}
			}
		}
	case *ast.IfStmt:
		s.stmt(x.Init, cx)
		s.expr(x.Cond, cx)
		thenLive, elseLive, why := s.condLiveness(x.Cond)
		if why != "" {
			s.pruned = append(s.pruned, why)
		}
		if thenLive {
			c2 := cx
			if c2.guard == nil && s.uniqueGuard(x.Cond) {
				c2.guard = x
			}
			s.stmts(x.Body.List, c2)
		}
		if elseLive && x.Else != nil {
			s.stmt(x.Else, cx)
		}
	case *ast.ForStmt:
		s.stmt(x.Init, cx)
		if x.Cond != nil {
			s.expr(x.Cond, cx)
		}
		s.stmt(x.Post, cx)
		c2 := cx
		c2.breakDepth++
		s.stmts(x.Body.List, c2)
	case *ast.RangeStmt:
		s.expr(x.X, cx)
		if x.Tok == token.ASSIGN {
			for _, kv := range []ast.Expr{x.Key, x.Value} {
				if kv != nil {
					s.write(kv, nil, token.ASSIGN, st, cx)
				}
			}
		}
		c2 := cx
		c2.breakDepth++
		s.stmts(x.Body.List, c2)
	case *ast.SwitchStmt:
		s.stmt(x.Init, cx)
		if x.Tag != nil {
			s.expr(x.Tag, cx)
		}
		c2 := cx
		c2.breakDepth++
		for _, cl := range x.Body.List {
			cc := cl.(*ast.CaseClause)
			for _, e := range cc.List {
				s.expr(e, cx)
			}
			s.stmts(cc.Body, c2)
		}
	case *ast.TypeSwitchStmt:
		s.stmt(x.Init, cx)
		s.stmt(x.Assign, cx)
		c2 := cx
		c2.breakDepth++
		for _, cl := range x.Body.List {
			s.stmts(cl.(*ast.CaseClause).Body, c2)
		}
	case *ast.SelectStmt:
		s.add(moEffect{class: "other", target: "select statement", sig: "select", pos: x.Pos(), stmt: st, guard: cx.guard})
	case *ast.SendStmt:
		s.expr(x.Value, cx)
		s.add(moEffect{class: "other", target: "channel send " + exprStr(x.Chan), sig: "chan-send", pos: x.Pos(), stmt: st, guard: cx.guard})
	case *ast.GoStmt:
		s.add(moEffect{class: "other", target: "go statement", sig: "go", pos: x.Pos(), stmt: st, guard: cx.guard})
	case *ast.DeferStmt:
		s.add(moEffect{class: "other", target: "defer inside the loop", sig: "defer", pos: x.Pos(), stmt: st, guard: cx.guard})
	case *ast.ReturnStmt:
		for _, r := range x.Results {
			s.expr(r, cx)
		}
		var parts []string
		for _, r := range x.Results {
			parts = append(parts, exprStr(r))
		}
		s.exits = append(s.exits, moExit{kind: "return", stmt: st, guard: cx.guard, text: "return " + strings.Join(parts, ", "), block: cx.block, idx: cx.idx})
	case *ast.BranchStmt:
		switch x.Tok {
		case token.BREAK:
			if x.Label == nil {
				if cx.breakDepth == 0 {
					s.exits = append(s.exits, moExit{kind: "break", stmt: st, guard: cx.guard, text: "break", block: cx.block, idx: cx.idx})
				}
			} else if x.Label.Name == s.l.label {
				s.exits = append(s.exits, moExit{kind: "break", stmt: st, guard: cx.guard, text: "break", block: cx.block, idx: cx.idx})
			} else if !cx.labels[x.Label.Name] {
				s.exits = append(s.exits, moExit{kind: "outer", stmt: st, guard: cx.guard, text: "break " + x.Label.Name, block: cx.block, idx: cx.idx})
			}
		case token.CONTINUE:
			if x.Label != nil && x.Label.Name != s.l.label && !cx.labels[x.Label.Name] {
				s.exits = append(s.exits, moExit{kind: "outer", stmt: st, guard: cx.guard, text: "continue " + x.Label.Name, block: cx.block, idx: cx.idx})
			}
		case token.GOTO:
			s.undec = append(s.undec, "goto inside the loop body")
		}
	case *ast.EmptyStmt:
	default:
		s.undec = append(s.undec, fmt.Sprintf("unsupported statement %T", st))
	}
}

// condLiveness prunes branches that cannot execute: compile-time constant
// conditions, and `x != nil` / `x == nil` where x is the result of a call all
// of whose callees always return nil in that position.
func (s *moScan) condLiveness(cond ast.Expr) (thenLive, elseLive bool, why string) {
	if tv, ok := s.info().Types[cond]; ok && tv.Value != nil && tv.Value.Kind() == constant.Bool {
		b := constant.BoolVal(tv.Value)
		return b, !b, fmt.Sprintf("condition %s is the constant %v", exprStr(cond), b)
	}
	be, ok := ast.Unparen(cond).(*ast.BinaryExpr)
	if !ok || (be.Op != token.NEQ && be.Op != token.EQL) {
		return true, true, ""
	}
	var other ast.Expr
	if moIsNil(s.info(), be.Y) {
		other = be.X
	} else if moIsNil(s.info(), be.X) {
		other = be.Y
	} else {
		return true, true, ""
	}
	id, ok := ast.Unparen(other).(*ast.Ident)
	if !ok {
		return true, true, ""
	}
	obj := moObj(s.info(), id)
	call, idx := s.soleCallDef(obj)
	if call == nil {
		return true, true, ""
	}
	if ok, cs := s.a.AlwaysNilAt(call.Lparen, idx); ok {
		why := fmt.Sprintf("%s is always nil (result %d of %s; %d callee(s), none ever returns non-nil there)", id.Name, idx, exprStr(call.Fun), len(cs))
		if be.Op == token.NEQ {
			return false, true, why
		}
		return true, false, why
	}
	return true, true, ""
}

func moIsNil(info *types.Info, e ast.Expr) bool {
	id, ok := ast.Unparen(e).(*ast.Ident)
	if !ok {
		return false
	}
	_, isNil := info.Uses[id].(*types.Nil)
	return isNil
}

// soleCallDef: obj is defined exactly once (in the enclosing declaration), as
// result idx of a call, and never assigned again.
func (s *moScan) soleCallDef(obj types.Object) (*ast.CallExpr, int) {
	if obj == nil || s.l.fd == nil {
		return nil, 0
	}
	var call *ast.CallExpr
	idx, n := 0, 0
	ast.Inspect(s.l.fd.Body, func(nd ast.Node) bool {
		as, ok := nd.(*ast.AssignStmt)
		if !ok {
			return true
		}
		for i, lh := range as.Lhs {
			id, ok := lh.(*ast.Ident)
			if !ok || moObj(s.info(), id) != obj {
				continue
			}
			n++
			if len(as.Rhs) == 1 {
				if c, ok := ast.Unparen(as.Rhs[0]).(*ast.CallExpr); ok {
					call, idx = c, i
				}
			} else if len(as.Rhs) == len(as.Lhs) {
				if c, ok := ast.Unparen(as.Rhs[i]).(*ast.CallExpr); ok {
					call, idx = c, 0
				}
			}
		}
		return true
	})
	if n != 1 {
		return nil, 0
	}
	return call, idx
}

// uniqueGuard: the condition implies key == <loop-invariant expression>, so
// at most one iteration can take the branch (map keys are distinct).
func (s *moScan) uniqueGuard(cond ast.Expr) bool {
	switch x := ast.Unparen(cond).(type) {
	case *ast.BinaryExpr:
		if x.Op == token.LAND {
			return s.uniqueGuard(x.X) || s.uniqueGuard(x.Y)
		}
		if x.Op == token.EQL {
			if s.l.isKeyIdent(x.X) && s.invariant(x.Y, true) {
				return true
			}
			if s.l.isKeyIdent(x.Y) && s.invariant(x.X, true) {
				return true
			}
		}
	}
	return false
}

// invariant: the expression has the same value in every iteration (mentions
// neither the loop variables, nor anything declared in the body, nor calls).
// allowCalls admits calls whose callees have no effects at all (getters).
func (s *moScan) invariant(e ast.Expr, allowCalls bool) bool {
	ok := true
	ast.Inspect(e, func(n ast.Node) bool {
		switch x := n.(type) {
		case *ast.Ident:
			o := moObj(s.info(), x)
			if o == nil {
				return true
			}
			if o == s.l.key || o == s.l.val || s.l.declaredInLoop(o) {
				ok = false
			}
		case *ast.CallExpr:
			if tv, isT := s.info().Types[x.Fun]; isT && tv.IsType() {
				return true
			}
			if !allowCalls || !s.pureCall(x) {
				ok = false
			}
		case *ast.FuncLit:
			ok = false
		}
		return ok
	})
	return ok
}

func (s *moScan) pureCall(call *ast.CallExpr) bool {
	if id, ok := ast.Unparen(call.Fun).(*ast.Ident); ok {
		if _, ok := s.info().Uses[id].(*types.Builtin); ok {
			return id.Name == "len" || id.Name == "cap"
		}
	}
	cs := moCallees(s.a, s.info(), call)
	if len(cs) == 0 {
		return false
	}
	for _, c := range cs {
		sum := s.a.sums[c]
		if sum == nil {
			if len(dmExternEffects(c)) > 0 {
				return false
			}
			continue
		}
		if len(sum.Effects) > 0 {
			return false
		}
	}
	return true
}

// ---- expressions: calls ----

func (s *moScan) expr(e ast.Expr, cx moCtx) {
	if e == nil {
		return
	}
	ast.Inspect(e, func(n ast.Node) bool {
		switch x := n.(type) {
		case *ast.FuncLit:
			s.add(moEffect{class: "other", target: "function literal in the loop body", sig: "funclit", pos: x.Pos(), stmt: cx.curStmt, guard: cx.guard})
			return false
		case *ast.CallExpr:
			s.call(x, cx)
		case *ast.UnaryExpr:
			if x.Op == token.ARROW {
				s.add(moEffect{class: "other", target: "channel receive", sig: "chan-recv", pos: x.Pos(), stmt: cx.curStmt, guard: cx.guard})
			}
		}
		return true
	})
}

func (s *moScan) call(call *ast.CallExpr, cx moCtx) {
	info := s.info()
	if tv, ok := info.Types[call.Fun]; ok && tv.IsType() {
		return
	}
	if id, ok := ast.Unparen(call.Fun).(*ast.Ident); ok {
		if _, ok := info.Uses[id].(*types.Builtin); ok {
			switch id.Name {
			case "delete":
				p := s.l.resolve(s.a, call.Args[0], true, 0)
				switch {
				case p.kind == "fresh":
				case p.kind == "elem":
					s.add(moEffect{class: "keyed", target: "delete(" + exprStr(call.Args[0]) + ", …)", obj: p.obj, keyedOn: p.keyedOn, pos: call.Pos(), stmt: cx.curStmt, guard: cx.guard})
				case s.l.isKeyIdent(call.Args[1]):
					s.add(moEffect{class: "keyed", target: "delete(" + exprStr(call.Args[0]) + ", key)", obj: p.obj, keyedOn: exprStr(call.Args[0]), pos: call.Pos(), stmt: cx.curStmt, guard: cx.guard})
				default:
					s.add(moEffect{class: "other", target: "delete from " + exprStr(call.Args[0]) + " with a key other than the loop key", sig: "delete " + moTypeSig(info.TypeOf(call.Args[0])), obj: p.obj, pos: call.Pos(), stmt: cx.curStmt, guard: cx.guard})
				}
			case "copy", "clear":
				s.writeThrough(call.Args[0], id.Name+"()", "", cx, call.Pos())
			case "print", "println":
				s.add(moEffect{class: "other", target: "output " + id.Name, sig: "io", pos: call.Pos(), stmt: cx.curStmt, guard: cx.guard})
			case "close":
				s.add(moEffect{class: "other", target: "close channel", sig: "chan", pos: call.Pos(), stmt: cx.curStmt, guard: cx.guard})
			}
			return
		}
	}
	cs := moCallees(s.a, info, call)
	if len(cs) == 0 {
		s.add(moEffect{class: "other", target: "call of " + exprStr(call.Fun) + " cannot be resolved", sig: "unresolved call", pos: call.Pos(), stmt: cx.curStmt, guard: cx.guard})
		return
	}
	for _, callee := range cs {
		var effs []dmEffect
		sum := s.a.sums[callee]
		if sum == nil {
			effs = dmExternEffects(callee)
		} else {
			effs = sum.sortedEffects()
		}
		for _, e := range effs {
			s.calleeEffect(call, callee, sum, e, cx)
		}
	}
}

func moCalleeName(f *ssa.Function) string {
	n := f.String()
	n = strings.ReplaceAll(n, ModPath+"/homescript/", "")
	return n
}

func (s *moScan) calleeEffect(call *ast.CallExpr, callee *ssa.Function, sum *dmSummary, e dmEffect, cx moCtx) {
	cname := moCalleeName(callee)
	mk := func(class, target, sig string) moEffect {
		return moEffect{class: class, target: target, sig: sig, pos: call.Pos(), stmt: cx.curStmt, guard: cx.guard}
	}
	if !strings.HasPrefix(e.Root, "param:") {
		root := e.Root
		if i := strings.Index(root, ":"); i > 0 {
			root = root[:i]
		}
		ef := mk("other", fmt.Sprintf("call %s: %s", cname, e), fmt.Sprintf("call %s: %s", moStableCallee(callee), root))
		ef.callee, ef.item = cname, e.Root+e.Path
		s.add(ef)
		return
	}
	var pi int
	fmt.Sscanf(e.Root, "param:%d", &pi)
	args := moArgFor(s.info(), call, callee, pi)
	if args == nil {
		if callee.Signature.Variadic() {
			return
		}
		s.add(mk("other", fmt.Sprintf("call %s writes %s%s, argument not identifiable", cname, e.Root, e.Path), "call "+moStableCallee(callee)+": arg?"))
		return
	}
	for _, arg := range args {
		p := s.l.resolve(s.a, arg, true, 0)
		what := fmt.Sprintf("%s%s via %s (%s)", exprStr(arg), e.Path, cname, e.Op)
		switch p.kind {
		case "fresh":
			continue
		case "elem":
			ef := mk("keyed", what, "")
			ef.obj, ef.keyedOn = p.obj, p.keyedOn
			s.add(ef)
			continue
		}
		// outer / unknown storage
		if e.KeyParam >= 0 && (e.Op == "mapupdate" || e.Op == "mapdelete") && (sum == nil || sum.KeyedOnly(e)) {
			ka := moArgFor(s.info(), call, callee, e.KeyParam)
			if len(ka) == 1 && s.l.isKeyIdent(ka[0]) {
				s.add(mk("keyed", what+" keyed by the loop key inside the callee", ""))
				continue
			}
		}
		if e.Op == "append" && e.Last != nil && s.isDiagSlice(e.Last.Type()) {
			ef := mk("diag", exprStr(arg)+e.Path+" via "+cname, "")
			ef.obj = p.obj
			s.add(ef)
			continue
		}
		field := e.Path
		if e.Last != nil {
			field = "." + e.Last.Name()
		}
		// A write through a parameter that receives a plain local of the
		// enclosing function (not the receiver) is the same effect as the
		// inline write to that local: `helper(fn, slot)` with `slot[k] = v`
		// inside reads like `slot[k] = v` in the loop body. The callee's
		// identity adds nothing for such an effect (the place and the kind of
		// write are what the review is about), so it gets the inline signature
		// and a loop body extracted into a helper keeps its signature.
		if sig, ok := s.inlineWriteSig(arg, e); ok {
			ef := mk("other", "call "+what, sig)
			ef.obj = p.obj
			ef.callee, ef.item = cname, exprStr(arg)+e.Path+"("+e.Op+")"
			if p.kind == "unknown" {
				ef.why = p.why
			}
			s.add(ef)
			continue
		}
		ef := mk("other", "call "+what, fmt.Sprintf("call %s: writes %s%s", moStableCallee(callee), moTypeSig(s.info().TypeOf(arg)), field))
		ef.obj = p.obj
		ef.callee, ef.item = cname, exprStr(arg)+e.Path+"("+e.Op+")"
		if p.kind == "unknown" {
			ef.why = p.why
		}
		s.add(ef)
	}
}

// inlineWriteSig: the signature the effect e of a callee would have if the
// write were made in the loop body itself, for an argument that is a plain
// local variable / parameter (not the receiver) of the enclosing function.
func (s *moScan) inlineWriteSig(arg ast.Expr, e dmEffect) (string, bool) {
	id, ok := ast.Unparen(arg).(*ast.Ident)
	if !ok {
		return "", false
	}
	v, ok := moObj(s.info(), id).(*types.Var)
	if !ok || v.IsField() || v.Pkg() == nil || v.Parent() == nil || v.Parent() == v.Pkg().Scope() {
		return "", false
	}
	if fd := s.l.fd; fd != nil && fd.Recv != nil && len(fd.Recv.List) == 1 && len(fd.Recv.List[0].Names) == 1 {
		if s.info().Defs[fd.Recv.List[0].Names[0]] == v {
			return "", false
		}
	}
	place := moTypeSig(v.Type())
	switch {
	case e.Path == "":
	case e.Last != nil && e.First == e.Last && e.Path == "."+e.Last.Name():
		if e.Last.Exported() {
			place += "." + e.Last.Name()
		} else {
			place += "." + moDual("<"+moTypeSig(e.Last.Type())+">", e.Last.Name())
		}
	default:
		return "", false
	}
	switch e.Op {
	case "mapupdate":
		return "assign " + place + "[]", true
	case "store":
		return "assign " + place, true
	case "append":
		return "append to " + place, true
	}
	return "", false
}

func moTypeSig(t types.Type) string {
	if t == nil {
		return "?"
	}
	return types.TypeString(t, func(p *types.Package) string { return p.Name() })
}

func (s *moScan) isDiagSlice(t types.Type) bool {
	sl, ok := t.Underlying().(*types.Slice)
	return ok && s.diagT != nil && types.Identical(sl.Elem(), s.diagT)
}

// ---- assignments ----

func (s *moScan) assign(x *ast.AssignStmt, cx moCtx) {
	for _, r := range x.Rhs {
		s.expr(r, cx)
	}
	for _, lh := range x.Lhs {
		// index/selector sub-expressions of the target may contain calls
		if _, ok := lh.(*ast.Ident); !ok {
			s.expr(lh, cx)
		}
	}
	for i, lh := range x.Lhs {
		if id, ok := lh.(*ast.Ident); ok && (id.Name == "_" || (x.Tok == token.DEFINE && s.info().Defs[id] != nil)) {
			continue
		}
		var rhs ast.Expr
		if len(x.Rhs) == len(x.Lhs) {
			rhs = x.Rhs[i]
		}
		s.write(lh, rhs, x.Tok, x, cx)
	}
}

func (s *moScan) writeThrough(target ast.Expr, how, sig string, cx moCtx, pos token.Pos) {
	p := s.l.resolve(s.a, target, true, 0)
	switch p.kind {
	case "fresh":
	case "elem":
		s.add(moEffect{class: "keyed", target: how + " on " + exprStr(target), obj: p.obj, keyedOn: p.keyedOn, pos: pos, stmt: cx.curStmt, guard: cx.guard})
	default:
		s.add(moEffect{class: "other", target: how + " on " + exprStr(target), sig: how + " " + moTypeSig(s.info().TypeOf(target)), obj: p.obj, pos: pos, stmt: cx.curStmt, guard: cx.guard, why: p.why})
	}
}

func (s *moScan) write(lh ast.Expr, rhs ast.Expr, tok token.Token, st ast.Stmt, cx moCtx) {
	info := s.info()
	p := s.l.resolve(s.a, lh, false, 0)
	mk := func(class, target, sig string) moEffect {
		return moEffect{class: class, target: target, sig: sig, obj: p.obj, keyedOn: p.keyedOn, pos: lh.Pos(), stmt: st, guard: cx.guard, why: p.why}
	}
	switch p.kind {
	case "fresh":
		return
	case "elem":
		s.add(mk("keyed", exprStr(lh), ""))
		return
	}
	lt := info.TypeOf(lh)
	target := exprStr(lh)
	_, plain := ast.Unparen(lh).(*ast.Ident)
	tsig := moPlaceSig(info, lh)
	// x = append(x, …)
	if call, ok := moCallOf(rhs); ok && tok == token.ASSIGN {
		if id, ok := ast.Unparen(call.Fun).(*ast.Ident); ok && id.Name == "append" && len(call.Args) > 0 && exprStr(call.Args[0]) == target {
			if _, isB := info.Uses[id].(*types.Builtin); isB {
				if lt != nil && s.isDiagSlice(lt) {
					s.add(mk("diag", target, ""))
					return
				}
				if plain {
					s.add(mk("append", target, "append to local slice"))
					return
				}
				s.add(mk("other", "append to "+target+" (element order follows iteration order)", "append to "+tsig))
				return
			}
		}
		// acc = strings.ReplaceAll(acc, key, value)
		if fn := CalleeOf(info, call); fn != nil && fn.Pkg() != nil && fn.Pkg().Path() == "strings" && fn.Name() == "ReplaceAll" && plain &&
			len(call.Args) == 3 && exprStr(call.Args[0]) == target {
			if s.l.isKeyIdent(call.Args[1]) && s.l.val != nil {
				if id, ok := ast.Unparen(call.Args[2]).(*ast.Ident); ok && moObj(info, id) == s.l.val {
					s.add(mk("replace", target, "ReplaceAll accumulation"))
					return
				}
			}
		}
	}
	if rhs != nil && tok == token.ASSIGN {
		if tv, ok := info.Types[rhs]; ok && (tv.Value != nil || tv.IsNil()) {
			s.add(mk("constflag", target+" = "+exprStr(rhs), ""))
			return
		}
	}
	switch tok {
	case token.ADD_ASSIGN, token.SUB_ASSIGN, token.OR_ASSIGN, token.AND_ASSIGN, token.XOR_ASSIGN, token.MUL_ASSIGN:
		if b, ok := lt.Underlying().(*types.Basic); ok && b.Info()&types.IsInteger != 0 {
			if rhs == nil || s.invariantOrElem(rhs) {
				s.add(mk("accum", target, ""))
				return
			}
		}
	}
	s.add(mk("other", "assignment to "+target+" (last writer wins / value depends on earlier iterations)", "assign "+tsig))
}

// invariantOrElem: the operand of a commutative accumulation may depend on the
// current element but not on state carried between iterations (checked later
// by the loop-carried-read test); anything goes here.
func (s *moScan) invariantOrElem(e ast.Expr) bool { return true }

func moCallOf(e ast.Expr) (*ast.CallExpr, bool) {
	if e == nil {
		return nil, false
	}
	c, ok := ast.Unparen(e).(*ast.CallExpr)
	return c, ok
}

// moPlaceSig: rename-stable description of an l-value: the type of the root
// plus the selected fields.
func moPlaceSig(info *types.Info, e ast.Expr) string {
	var fields []string
	cur := e
	for {
		switch x := ast.Unparen(cur).(type) {
		case *ast.SelectorExpr:
			fields = append([]string{"." + moStableSel(info, x)}, fields...)
			cur = x.X
			continue
		case *ast.IndexExpr:
			fields = append([]string{"[]"}, fields...)
			cur = x.X
			continue
		case *ast.StarExpr:
			cur = x.X
			continue
		case *ast.Ident:
			t := info.TypeOf(x)
			return moTypeSig(t) + strings.Join(fields, "")
		}
		break
	}
	return "?" + strings.Join(fields, "")
}

// moStableSel: the name of a selected field as it appears in an effect
// signature. Exported fields keep their name; an unexported field (whose name
// is an implementation detail that a rename must be free to change) is
// described by its type.
func moStableSel(info *types.Info, x *ast.SelectorExpr) string {
	if v, ok := info.Uses[x.Sel].(*types.Var); ok && v.IsField() && !v.Exported() {
		return moDual("<"+moTypeSig(v.Type())+">", x.Sel.Name)
	}
	return x.Sel.Name
}

// moDual embeds the name-based spelling used by older reviewed tables next to
// the rename-stable one; moSigVariant selects one of them.
func moDual(stable, legacy string) string {
	if stable == legacy {
		return stable
	}
	return "\x01" + stable + "\x02" + legacy + "\x03"
}

func moSigVariant(s string, legacy bool) string {
	for {
		i := strings.Index(s, "\x01")
		if i < 0 {
			return s
		}
		// innermost-first is not needed: markers never nest across "\x03"
		j := strings.Index(s[i:], "\x02")
		k := strings.Index(s[i:], "\x03")
		if j < 0 || k < 0 || k < j {
			return s
		}
		if legacy {
			s = s[:i] + s[i+j+1:i+k] + s[i+k+1:]
		} else {
			s = s[:i] + s[i+1:i+j] + s[i+k+1:]
		}
	}
}

// moStableCallee: the name of a callee as it appears in an effect signature:
// exported functions/methods by name, unexported ones (and function literals)
// by receiver type and parameter/result types.
func moStableCallee(f *ssa.Function) string {
	return moDual(moStableCalleeName(f), f.Name())
}

func moStableCalleeName(f *ssa.Function) string {
	if o := f.Object(); o != nil && o.Exported() {
		return f.Name()
	}
	if f.Parent() != nil {
		return moStableCalleeName(f.Parent()) + "$lit"
	}
	sig := f.Signature
	var b strings.Builder
	if r := sig.Recv(); r != nil {
		b.WriteString("(" + moTypeSig(r.Type()) + ").")
	}
	b.WriteString("func(")
	for i := 0; i < sig.Params().Len(); i++ {
		if i > 0 {
			b.WriteString(",")
		}
		b.WriteString(moTypeSig(sig.Params().At(i).Type()))
	}
	b.WriteString(")")
	for i := 0; i < sig.Results().Len(); i++ {
		b.WriteString(" " + moTypeSig(sig.Results().At(i).Type()))
	}
	return b.String()
}

// ---- decision ----

type moVerdict struct {
	ok       bool
	violated bool // a definite order dependence (not merely "unknown shape")
	shape    string
	reasons  []string
	sig      string // rename-stable effect signature
	// sigLegacy: the same with unexported fields / callees spelled by name, as
	// recorded by reviewed tables written before the signature became rename-stable
	sigLegacy string
	notes     []string
}

func moJoinSig(parts []string) (stable, legacy string) {
	a, b := map[string]bool{}, map[string]bool{}
	for _, p := range parts {
		a[moSigVariant(p, false)] = true
		b[moSigVariant(p, true)] = true
	}
	join := func(m map[string]bool) string {
		var l []string
		for k := range m {
			l = append(l, k)
		}
		sort.Strings(l)
		return strings.Join(l, "; ")
	}
	return join(a), join(b)
}

func (s *moScan) readsOutside(match func(ast.Expr, []ast.Node) bool, skip map[ast.Stmt]bool) []token.Pos {
	var hits []token.Pos
	var stack []ast.Node
	ast.Inspect(s.l.rs.Body, func(n ast.Node) bool {
		if n == nil {
			stack = stack[:len(stack)-1]
			return true
		}
		if st, ok := n.(ast.Stmt); ok && skip[st] {
			return false // the writing statement itself (f(nil) is not called for it)
		}
		if e, ok := n.(ast.Expr); ok && match(e, stack) {
			hits = append(hits, e.Pos())
		}
		stack = append(stack, n)
		return true
	})
	return hits
}

func (s *moScan) decide(c *Ctx) moVerdict {
	l := s.l
	v := moVerdict{}
	if len(s.undec) > 0 {
		v.reasons = append(v.reasons, s.undec...)
	}
	// loop-carried reads
	byObj := map[types.Object][]moEffect{}
	for _, e := range s.effects {
		if e.obj != nil && e.class != "other" {
			byObj[e.obj] = append(byObj[e.obj], e)
		}
	}
	var extra []moEffect
	// objects in order of their first effect (not in map order: the order of the
	// reported reasons must not vary between runs)
	var objOrder []types.Object
	seenObj := map[types.Object]bool{}
	for _, e := range s.effects {
		if e.obj != nil && e.class != "other" && !seenObj[e.obj] {
			seenObj[e.obj] = true
			objOrder = append(objOrder, e.obj)
		}
	}
	for _, obj := range objOrder {
		effs := byObj[obj]
		if obj == l.val || obj == l.key {
			continue
		}
		skip := map[ast.Stmt]bool{}
		keyedOn := map[string]bool{}
		allKeyed := true
		for _, e := range effs {
			if e.class == "keyed" {
				if e.keyedOn != "" {
					keyedOn[e.keyedOn] = true
				}
				continue
			}
			allKeyed = false
			if e.class == "diag" && e.stmt != nil {
				if _, isAssign := e.stmt.(*ast.AssignStmt); !isAssign {
					continue // emitted through a call: no textual self-reference
				}
			}
			if e.stmt != nil {
				skip[e.stmt] = true
			}
		}
		if allKeyed {
			var kos []string
			for ko := range keyedOn {
				kos = append(kos, ko)
			}
			sort.Strings(kos)
			for _, ko := range kos {
				hits := s.readsOutside(func(e ast.Expr, stack []ast.Node) bool {
					if exprStr(e) != ko {
						return false
					}
					if len(stack) > 0 {
						if ix, ok := stack[len(stack)-1].(*ast.IndexExpr); ok && ix.X == e && l.isKeyIdent(ix.Index) {
							return false
						}
						if call, ok := stack[len(stack)-1].(*ast.CallExpr); ok && len(call.Args) == 2 && call.Args[0] == e && l.isKeyIdent(call.Args[1]) {
							return false // delete(m, key)
						}
					}
					return true
				}, nil)
				if len(hits) > 0 {
					extra = append(extra, moEffect{class: "other", target: fmt.Sprintf("%s is written per key but also read as a whole at %s", ko, c.Pos(hits[0])), sig: "reads keyed container as a whole", pos: hits[0]})
				}
			}
			continue
		}
		if _, isVar := obj.(*types.Var); !isVar {
			continue
		}
		// plain variables / fields rooted at obj: reads elsewhere in the body
		for _, e := range effs {
			if e.class == "keyed" {
				continue
			}
			tgt := e.target
			if i := strings.Index(tgt, " = "); i > 0 {
				tgt = tgt[:i]
			}
			if i := strings.Index(tgt, " via "); i > 0 {
				continue
			}
			hits := s.readsOutside(func(x ast.Expr, stack []ast.Node) bool { return exprStr(x) == tgt }, skip)
			if len(hits) > 0 {
				extra = append(extra, moEffect{class: "other", target: fmt.Sprintf("%s is written by the loop and read by other iterations at %s", tgt, c.Pos(hits[0])), sig: "reads loop-carried " + e.class, pos: hits[0]})
				break
			}
		}
	}
	s.effects = append(s.effects, extra...)

	// signature
	sigSet := map[string]bool{}
	for _, e := range s.effects {
		if e.class == "other" {
			sg := e.sig
			if strings.HasPrefix(sg, "call ") {
				if i := strings.Index(sg, ":"); i > 0 {
					sg = sg[:i] // one entry per callee, whatever it touches
				}
			}
			sigSet["other:"+sg] = true
		} else {
			sigSet[e.class] = true
		}
	}
	// exits
	for i := range s.exits {
		x := &s.exits[i]
		switch x.kind {
		case "return":
			x.uniform = true
			for _, r := range x.stmt.(*ast.ReturnStmt).Results {
				if !s.invariant(r, false) {
					x.uniform = false
				}
			}
		case "break":
			x.uniform = true
		}
		k := "exit:" + x.kind
		switch {
		case x.guard != nil:
			k += "(unique-key)"
		case x.uniform:
			k += "(uniform)"
		default:
			k += "(element-dependent)"
		}
		sigSet[k] = true
	}
	var sig []string
	for k := range sigSet {
		sig = append(sig, k)
	}
	v.sig, v.sigLegacy = moJoinSig(sig)
	v.notes = append(v.notes, s.pruned...)

	var others []moEffect
	classes := map[string]bool{}
	for _, e := range s.effects {
		if e.class == "other" {
			others = append(others, e)
		} else {
			classes[e.class] = true
		}
	}
	grouped := map[string]int{}
	for _, e := range others {
		if e.callee != "" {
			k := e.callee + " @" + c.Pos(e.pos)
			if i, ok := grouped[k]; ok {
				if !strings.Contains(v.reasons[i], e.item) && len(v.reasons[i]) < 420 {
					v.reasons[i] += ", " + e.item
				} else if !strings.HasSuffix(v.reasons[i], "…") && len(v.reasons[i]) >= 420 {
					v.reasons[i] += ", …"
				}
				continue
			}
			grouped[k] = len(v.reasons)
			v.reasons = append(v.reasons, fmt.Sprintf("call of %s changes state shared by all iterations: %s", k, e.item))
			continue
		}
		r := e.target
		if e.why != "" {
			r += " [" + e.why + "]"
		}
		r += " @" + c.Pos(e.pos)
		dup := false
		for _, old := range v.reasons {
			if old == r {
				dup = true
			}
		}
		if !dup {
			v.reasons = append(v.reasons, r)
		}
	}

	// constant flags: every assignment to one target must store the same constant,
	// and one target must not be accumulated with different operators
	flagVal := map[string]string{}
	for _, e := range s.effects {
		if e.class != "constflag" {
			continue
		}
		i := strings.Index(e.target, " = ")
		if i < 0 {
			continue
		}
		tgt, val := e.target[:i], e.target[i+3:]
		if old, ok := flagVal[tgt]; ok && old != val {
			v.reasons = append(v.reasons, fmt.Sprintf("%s is assigned different constants (%s, %s) by different iterations: the last writer wins @%s", tgt, old, val, c.Pos(e.pos)))
			sigSet["constflag-conflict"] = true
		}
		flagVal[tgt] = val
	}
	accOp := map[string]token.Token{}
	for _, e := range s.effects {
		if e.class != "accum" {
			continue
		}
		op := token.ADD_ASSIGN
		if as, ok := e.stmt.(*ast.AssignStmt); ok {
			op = as.Tok
			if op == token.SUB_ASSIGN {
				op = token.ADD_ASSIGN
			}
		}
		if old, ok := accOp[e.target]; ok && old != op {
			v.reasons = append(v.reasons, fmt.Sprintf("%s is accumulated with different operators (%s, %s): not commutative @%s", e.target, old, op, c.Pos(e.pos)))
		}
		accOp[e.target] = op
	}
	// shapes needing extra proof
	for _, e := range s.effects {
		switch e.class {
		case "append":
			if ok, why := s.sortedAfter(e.obj); !ok {
				v.reasons = append(v.reasons, fmt.Sprintf("%s collects elements in iteration order and %s", e.target, why))
				sigSet["append-unsorted"] = true
			} else {
				v.notes = append(v.notes, e.target+": "+why)
			}
		case "replace":
			ok, definite, why := s.replaceCommutes()
			if !ok {
				v.reasons = append(v.reasons, why)
				if definite {
					v.violated = true
				}
			} else {
				v.notes = append(v.notes, why)
			}
		}
	}
	if sigSet["append-unsorted"] {
		sig = append(sig, "append-unsorted")
		v.sig, v.sigLegacy = moJoinSig(sig)
	}

	if len(s.exits) > 0 {
		s.decideExits(c, &v, classes)
	}
	if len(v.reasons) == 0 {
		v.ok = true
		var cl []string
		for k := range classes {
			cl = append(cl, k)
		}
		sort.Strings(cl)
		switch {
		case len(s.exits) > 0 && len(cl) == 0:
			v.shape = "search (iv)"
		case len(s.exits) > 0:
			v.shape = "search (iv) + " + strings.Join(cl, "+")
		case len(cl) == 0:
			v.shape = "no effect outside the iteration"
		default:
			v.shape = strings.Join(cl, "+")
		}
	}
	return v
}

// deadAtReturn: the effect only touches a variable local to the enclosing
// function, freshly created there, which the return statement does not mention.
func (s *moScan) deadAtReturn(e moEffect, x moExit) bool {
	if x.kind != "return" || e.obj == nil {
		return false
	}
	v, ok := e.obj.(*types.Var)
	if !ok || v.IsField() || s.l.fd == nil {
		return false
	}
	if !s.freshLocal(v) {
		return false
	}
	mentioned := false
	ast.Inspect(x.stmt, func(n ast.Node) bool {
		if id, ok := n.(*ast.Ident); ok && moObj(s.info(), id) == v {
			mentioned = true
		}
		return true
	})
	// a named result is implicitly returned
	if res := s.enclosingResults(); res != nil {
		for _, f := range res.List {
			for _, n := range f.Names {
				if s.info().Defs[n] == v {
					return false
				}
			}
		}
	}
	return !mentioned
}

func (s *moScan) enclosingResults() *ast.FieldList {
	// innermost function literal containing the loop, else the declaration
	for i := len(s.l.parents) - 1; i >= 0; i-- {
		if fl, ok := s.l.parents[i].(*ast.FuncLit); ok {
			return fl.Type.Results
		}
	}
	if s.l.fd != nil {
		return s.l.fd.Type.Results
	}
	return nil
}

// freshLocal: v is declared in the enclosing function by `v := make/literal`
// or `var v T` (so it cannot alias state that outlives the call).
func (s *moScan) freshLocal(v *types.Var) bool {
	fresh := false
	ast.Inspect(s.l.fd.Body, func(n ast.Node) bool {
		switch x := n.(type) {
		case *ast.AssignStmt:
			if x.Tok != token.DEFINE || len(x.Lhs) != len(x.Rhs) {
				return true
			}
			for i, lh := range x.Lhs {
				if id, ok := lh.(*ast.Ident); ok && s.info().Defs[id] == v {
					fresh = moFreshExpr(s.info(), x.Rhs[i])
				}
			}
		case *ast.ValueSpec:
			for i, id := range x.Names {
				if s.info().Defs[id] == v {
					fresh = i >= len(x.Values) || moFreshExpr(s.info(), x.Values[i])
				}
			}
		}
		return true
	})
	return fresh
}

func moFreshExpr(info *types.Info, e ast.Expr) bool {
	switch x := ast.Unparen(e).(type) {
	case *ast.CompositeLit, *ast.BasicLit:
		return true
	case *ast.UnaryExpr:
		if x.Op == token.AND {
			_, ok := ast.Unparen(x.X).(*ast.CompositeLit)
			return ok
		}
	case *ast.CallExpr:
		if id, ok := ast.Unparen(x.Fun).(*ast.Ident); ok {
			if _, ok := info.Uses[id].(*types.Builtin); ok && (id.Name == "make" || id.Name == "new") {
				return true
			}
		}
	case *ast.Ident:
		if tv, ok := info.Types[e]; ok && (tv.Value != nil || tv.IsNil()) {
			return true
		}
	}
	return false
}

func (s *moScan) decideExits(c *Ctx, v *moVerdict, classes map[string]bool) {
	// (a) all exits inside one and the same unique-key guard
	var g *ast.IfStmt
	sameGuard := true
	for _, x := range s.exits {
		if x.guard == nil || (g != nil && x.guard != g) {
			sameGuard = false
		}
		if g == nil {
			g = x.guard
		}
	}
	if sameGuard && g != nil {
		for _, e := range s.effects {
			if e.class == "other" || e.guard == g {
				continue
			}
			dead := true
			for _, x := range s.exits {
				if !s.deadAtReturn(e, x) {
					dead = false
				}
			}
			if !dead {
				if e.class == "diag" {
					v.violated = true
				}
				v.reasons = append(v.reasons, fmt.Sprintf("iterations visited before the matching key perform %s (%s) and the loop then leaves early: the set of performed effects depends on the visiting order @%s", e.target, e.class, c.Pos(e.pos)))
			}
		}
		return
	}
	// (b) all exits uniform and identical
	first := s.exits[0]
	for _, x := range s.exits {
		if !x.uniform {
			v.reasons = append(v.reasons, fmt.Sprintf("`%s` @%s leaves the loop with a value that depends on the element visited first (no key == <invariant> guard makes the match unique)", x.text, c.Pos(x.stmt.Pos())))
			continue
		}
		if x.kind != first.kind || x.text != first.text {
			v.reasons = append(v.reasons, fmt.Sprintf("exits `%s` @%s and `%s` @%s differ: which one fires first depends on the visiting order", first.text, c.Pos(first.stmt.Pos()), x.text, c.Pos(x.stmt.Pos())))
		}
	}
	diagSeen := false
	for _, e := range s.effects {
		if e.class == "other" {
			continue
		}
		ok := true
		for _, x := range s.exits {
			switch {
			case s.deadAtReturn(e, x):
			case e.class == "constflag" && moPrecedesInBlock(e.stmt, x):
			default:
				ok = false
			}
		}
		if ok {
			// the effect is fine with respect to every exit; but a const flag set
			// right before one exit must not be settable without exiting
			continue
		}
		if e.class == "diag" {
			if diagSeen {
				continue
			}
			diagSeen = true
			v.violated = true
			v.reasons = append(v.reasons, fmt.Sprintf("diagnostic emitted (%s @%s) in a loop that can leave early (`%s` @%s): when several elements qualify, which diagnostics are produced before the early exit depends on the map order — the *set* of diagnostics is order-dependent", e.target, c.Pos(e.pos), first.text, c.Pos(first.stmt.Pos())))
			continue
		}
		v.reasons = append(v.reasons, fmt.Sprintf("effect %s (%s) @%s persists when the loop leaves early through `%s`: how many elements were processed before depends on the visiting order", e.target, e.class, c.Pos(e.pos), first.text))
	}
}

// moPrecedesInBlock: stmt is one of the simple statements directly before the
// exit in the same statement list.
func moPrecedesInBlock(st ast.Stmt, x moExit) bool {
	for i := x.idx - 1; i >= 0; i-- {
		switch x.block[i].(type) {
		case *ast.AssignStmt, *ast.ExprStmt, *ast.IncDecStmt:
		default:
			return false
		}
		if x.block[i] == st {
			return true
		}
	}
	return false
}

// sortedAfter: after the loop, the first statement mentioning the slice sorts
// it — directly (sort.Strings/slices.Sort/...), through a helper of the module
// whose first use of the corresponding parameter is such a sort, or — when the
// slice is handed back to the caller (`return keys` in a key-collecting
// helper) — at every call site of the enclosing function.
func (s *moScan) sortedAfter(obj types.Object) (bool, string) {
	info := s.info()
	var cur ast.Node = s.l.rs
	encl := s.l.fd // a `return` after the loop leaves this declaration (not a function literal)
	for _, par := range s.l.parents {
		if _, ok := par.(*ast.FuncLit); ok {
			encl = nil
		}
	}
	for i := len(s.l.parents) - 1; i >= 0; i-- {
		par := s.l.parents[i]
		var list []ast.Stmt
		switch p := par.(type) {
		case *ast.BlockStmt:
			list = p.List
		case *ast.CaseClause:
			list = p.Body
		case *ast.LabeledStmt:
			cur = p
			continue
		case *ast.ForStmt, *ast.RangeStmt:
			return false, "is used again by an enclosing loop before being sorted"
		case *ast.FuncLit, *ast.FuncDecl:
			return false, "is never sorted afterwards"
		default:
			cur = par
			continue
		}
		idx := -1
		for j, st := range list {
			if st == cur {
				idx = j
			}
		}
		if idx < 0 {
			cur = par
			continue
		}
		if ok, decided, why := moFirstUseSorts(s.c, s.l.pkg, info, list[idx+1:], obj, encl, 0); decided {
			return ok, why
		}
		cur = par
	}
	return false, "is never sorted afterwards"
}

func moMentions(info *types.Info, n ast.Node, obj types.Object) bool {
	m := false
	ast.Inspect(n, func(x ast.Node) bool {
		if id, ok := x.(*ast.Ident); ok && moObj(info, id) == obj {
			m = true
		}
		return !m
	})
	return m
}

// moSortCall: call sorts obj (its first argument mentions obj).
func moSortCall(c *Ctx, info *types.Info, call *ast.CallExpr, obj types.Object, depth int) (bool, string) {
	if len(call.Args) == 0 {
		return false, ""
	}
	fn := CalleeOf(info, call)
	if fn == nil || fn.Pkg() == nil {
		return false, ""
	}
	pk, nm := fn.Pkg().Path(), fn.Name()
	if moMentions(info, call.Args[0], obj) {
		if (pk == "sort" && (nm == "Strings" || nm == "Ints" || nm == "Float64s")) || (pk == "slices" && nm == "Sort") {
			return true, fmt.Sprintf("sorted by %s.%s before any other use", pk, nm)
		}
		if (pk == "sort" && (nm == "Slice" || nm == "SliceStable" || nm == "Sort" || nm == "Stable")) || (pk == "slices" && strings.HasPrefix(nm, "Sort")) {
			return true, fmt.Sprintf("sorted by %s.%s before any other use (comparator assumed to order distinct elements totally)", pk, nm)
		}
	}
	// a helper of the module: the argument that is obj itself must be sorted by
	// the helper before the helper uses it in any other way
	if depth >= 2 || !strings.HasPrefix(pk, ModPath) {
		return false, ""
	}
	ref := moDeclOf(c, fn)
	if ref == nil || ref.fd.Body == nil || ref.fd.Type.Params == nil {
		return false, ""
	}
	argIdx := -1
	for i, a := range call.Args {
		if id, ok := ast.Unparen(a).(*ast.Ident); ok && moObj(info, id) == obj {
			if argIdx >= 0 {
				return false, ""
			}
			argIdx = i
		} else if moMentions(info, a, obj) {
			return false, ""
		}
	}
	if argIdx < 0 {
		return false, ""
	}
	var params []*ast.Ident
	for _, f := range ref.fd.Type.Params.List {
		params = append(params, f.Names...)
	}
	if argIdx >= len(params) || fn.Type().(*types.Signature).Variadic() {
		return false, ""
	}
	pobj := ref.pkg.TypesInfo.Defs[params[argIdx]]
	if pobj == nil {
		return false, ""
	}
	if ok, decided, why := moFirstUseSorts(c, ref.pkg, ref.pkg.TypesInfo, ref.fd.Body.List, pobj, ref.fd, depth+1); decided && ok {
		return true, fmt.Sprintf("passed to %s, where it is %s", fn.Name(), why)
	}
	return false, ""
}

// moFirstUseSorts scans a statement list: the first statement mentioning obj
// decides. decided == false: obj is not mentioned in the list.
func moFirstUseSorts(c *Ctx, pkg *packages.Package, info *types.Info, list []ast.Stmt, obj types.Object, fd *ast.FuncDecl, depth int) (ok, decided bool, why string) {
	for _, st := range list {
		if !moMentions(info, st, obj) {
			continue
		}
		switch x := st.(type) {
		case *ast.ExprStmt:
			if call, isCall := ast.Unparen(x.X).(*ast.CallExpr); isCall {
				if ok, why := moSortCall(c, info, call, obj, depth); ok {
					return true, true, why
				}
			}
		case *ast.ReturnStmt:
			// handed back unsorted: every caller must sort it first
			if fd != nil && depth == 0 {
				if ok, why := moCallersSort(c, pkg, info, fd, x, obj); ok {
					return true, true, why
				}
			}
		}
		return false, true, fmt.Sprintf("its first use after the loop (%s) is not a sort", c.Pos(st.Pos()))
	}
	return false, false, ""
}

type moDeclRef struct {
	fd  *ast.FuncDecl
	pkg *packages.Package
}

var moDeclCache = map[*Ctx]map[*types.Func]*moDeclRef{}

func moDeclOf(c *Ctx, fn *types.Func) *moDeclRef {
	m := moDeclCache[c]
	if m == nil {
		m = map[*types.Func]*moDeclRef{}
		for _, p := range c.All {
			for _, fd := range AllFuncDecls(p) {
				if o, ok := p.TypesInfo.Defs[fd.Name].(*types.Func); ok {
					m[o] = &moDeclRef{fd, p}
				}
			}
		}
		moDeclCache[c] = m
	}
	if o := fn.Origin(); o != nil {
		fn = o
	}
	return m[fn]
}

// moCallersSort: `return obj` (obj alone as one result) inside fd, and every
// call of fd in the module assigns that result to a variable whose first use
// afterwards is a sort.
func moCallersSort(c *Ctx, pkg *packages.Package, info *types.Info, fd *ast.FuncDecl, ret *ast.ReturnStmt, obj types.Object) (bool, string) {
	ri := -1
	for i, r := range ret.Results {
		if id, ok := ast.Unparen(r).(*ast.Ident); ok && moObj(info, id) == obj {
			ri = i
		} else if moMentions(info, r, obj) {
			return false, ""
		}
	}
	if ri < 0 {
		return false, ""
	}
	// the function must return the slice only there (any other return of a
	// non-nil slice in that position would escape the check)
	multi := false
	ast.Inspect(fd.Body, func(n ast.Node) bool {
		if _, ok := n.(*ast.FuncLit); ok {
			return false
		}
		if r, ok := n.(*ast.ReturnStmt); ok && r != ret && ri < len(r.Results) {
			if tv, ok := info.Types[r.Results[ri]]; !ok || !tv.IsNil() {
				if id, ok := ast.Unparen(r.Results[ri]).(*ast.Ident); !ok || moObj(info, id) != obj {
					multi = true
				}
			}
		}
		return true
	})
	if multi {
		return false, ""
	}
	self, _ := info.Defs[fd.Name].(*types.Func)
	if self == nil {
		return false, ""
	}
	sites := 0
	allSorted := true
	for _, p := range c.All {
		for _, f := range p.Syntax {
			var stack []ast.Node
			ast.Inspect(f, func(n ast.Node) bool {
				if n == nil {
					stack = stack[:len(stack)-1]
					return true
				}
				stack = append(stack, n)
				call, ok := n.(*ast.CallExpr)
				if !ok {
					return true
				}
				callee := CalleeOf(p.TypesInfo, call)
				if callee == nil {
					return true
				}
				if o := callee.Origin(); o != nil {
					callee = o
				}
				if callee != self {
					return true
				}
				sites++
				if !moCallResultSorted(c, p, stack, call, ri) {
					allSorted = false
				}
				return true
			})
		}
	}
	// a function value taken without calling it escapes the check
	if sites == 0 || !allSorted || moFuncValueEscapes(c, self) {
		return false, ""
	}
	return true, fmt.Sprintf("returned to the caller; all %d call site(s) of %s sort the result before any other use", sites, fd.Name.Name)
}

// moFuncValueEscapes: fn is mentioned somewhere other than as the callee of a call.
func moFuncValueEscapes(c *Ctx, fn *types.Func) bool {
	esc := false
	for _, p := range c.All {
		for _, f := range p.Syntax {
			var stack []ast.Node
			ast.Inspect(f, func(n ast.Node) bool {
				if n == nil {
					stack = stack[:len(stack)-1]
					return true
				}
				stack = append(stack, n)
				id, ok := n.(*ast.Ident)
				if !ok || p.TypesInfo.Uses[id] != types.Object(fn) {
					return true
				}
				// walk up through selector / paren to the call
				k := len(stack) - 2
				var child ast.Node = id
				for k >= 0 {
					switch x := stack[k].(type) {
					case *ast.SelectorExpr:
						if x.Sel == child {
							child = x
							k--
							continue
						}
					case *ast.ParenExpr, *ast.IndexExpr, *ast.IndexListExpr:
						child = stack[k]
						k--
						continue
					}
					break
				}
				if k < 0 {
					esc = true
					return true
				}
				if call, ok := stack[k].(*ast.CallExpr); !ok || call.Fun != child {
					esc = true
				}
				return true
			})
		}
	}
	return esc
}

// moCallResultSorted: the call (innermost node of stack) is the sole right-hand
// side of an assignment / definition in a statement list, and the variable
// receiving result ri is sorted before any other use.
func moCallResultSorted(c *Ctx, p *packages.Package, stack []ast.Node, call *ast.CallExpr, ri int) bool {
	if len(stack) < 3 {
		return false
	}
	as, ok := stack[len(stack)-2].(*ast.AssignStmt)
	if !ok || len(as.Rhs) != 1 || ast.Unparen(as.Rhs[0]) != ast.Expr(call) || ri >= len(as.Lhs) {
		return false
	}
	id, ok := as.Lhs[ri].(*ast.Ident)
	if !ok || id.Name == "_" {
		return false
	}
	v := moObj(p.TypesInfo, id)
	if v == nil {
		return false
	}
	var list []ast.Stmt
	switch b := stack[len(stack)-3].(type) {
	case *ast.BlockStmt:
		list = b.List
	case *ast.CaseClause:
		list = b.Body
	case *ast.CommClause:
		list = b.Body
	default:
		return false
	}
	for i, st := range list {
		if st == ast.Stmt(as) {
			ok, decided, _ := moFirstUseSorts(c, p, p.TypesInfo, list[i+1:], v, nil, 1)
			return ok && decided
		}
	}
	return false
}

// replaceCommutes: `acc = strings.ReplaceAll(acc, k, v)` over a literal map is
// order-insensitive iff the replacements commute.
func (s *moScan) replaceCommutes() (ok bool, definite bool, why string) {
	info := s.info()
	id, isId := ast.Unparen(s.l.rs.X).(*ast.Ident)
	if !isId {
		return false, false, "sequential ReplaceAll over a map that is not a local literal: cannot prove the replacements commute"
	}
	obj := moObj(info, id)
	var lit *ast.CompositeLit
	writes := 0
	var root ast.Node
	if s.l.fd != nil {
		root = s.l.fd
	}
	find := func(n ast.Node) bool {
		switch x := n.(type) {
		case *ast.AssignStmt:
			for i, lh := range x.Lhs {
				if lid, ok := lh.(*ast.Ident); ok && moObj(info, lid) == obj {
					writes++
					if len(x.Rhs) == len(x.Lhs) {
						lit, _ = ast.Unparen(x.Rhs[i]).(*ast.CompositeLit)
					}
				}
				if ix, ok := lh.(*ast.IndexExpr); ok {
					if lid, ok := ast.Unparen(ix.X).(*ast.Ident); ok && moObj(info, lid) == obj {
						writes += 2
					}
				}
			}
		case *ast.ValueSpec:
			for i, n := range x.Names {
				if info.Defs[n] == obj {
					writes++
					if i < len(x.Values) {
						lit, _ = ast.Unparen(x.Values[i]).(*ast.CompositeLit)
					}
				}
			}
		}
		return true
	}
	if root != nil {
		ast.Inspect(root, find)
	}
	if lit == nil || writes != 1 {
		for _, f := range s.l.pkg.Syntax {
			if lit != nil && writes == 1 {
				break
			}
			if obj.Parent() == s.l.pkg.Types.Scope() {
				ast.Inspect(f, find)
			}
		}
	}
	if lit == nil || writes != 1 {
		return false, false, fmt.Sprintf("sequential ReplaceAll over map %s whose contents are not a single literal: cannot prove the replacements commute", id.Name)
	}
	type kv struct{ k, v string }
	var ents []kv
	for _, el := range lit.Elts {
		e, ok := el.(*ast.KeyValueExpr)
		if !ok {
			return false, false, "map literal with a non key:value element"
		}
		ktv, vtv := info.Types[e.Key], info.Types[e.Value]
		if ktv.Value == nil || vtv.Value == nil || ktv.Value.Kind() != constant.String || vtv.Value.Kind() != constant.String {
			return false, false, "map literal with non-constant entries: cannot prove the replacements commute"
		}
		ents = append(ents, kv{constant.StringVal(ktv.Value), constant.StringVal(vtv.Value)})
	}
	overlap := func(a, b string) bool { // a proper suffix of a is a prefix of b
		for n := 1; n < len(a) && n <= len(b); n++ {
			if strings.HasPrefix(b, a[len(a)-n:]) && n < len(b) {
				return true
			}
		}
		return false
	}
	for i, a := range ents {
		for j, b := range ents {
			if i == j {
				continue
			}
			if a.k == "" {
				return false, true, "an empty key is replaced between every rune: never commutes"
			}
			if strings.Contains(b.k, a.k) {
				return false, true, fmt.Sprintf("ReplaceAll accumulation over the literal map %s is order-dependent: key %q is a substring of key %q (when %q is replaced first the longer key no longer matches)", id.Name, a.k, b.k, a.k)
			}
			if strings.Contains(b.v, a.k) {
				return false, true, fmt.Sprintf("ReplaceAll accumulation over the literal map %s is order-dependent: the replacement text %q of key %q contains key %q, so visiting %q before %q rewrites text that the other entry has just produced (e.g. input %q gives different results in the two orders)", id.Name, b.v, b.k, a.k, b.k, a.k, b.k)
			}
			if len(a.k) > 1 || len(b.k) > 1 || len(b.v) > 0 {
				if len(a.k) > 1 && (overlap(a.k, b.k) || overlap(b.k, a.k)) {
					return false, true, fmt.Sprintf("keys %q and %q overlap: replacing one can destroy or create an occurrence of the other", a.k, b.k)
				}
				if len(a.k) > 1 && (overlap(b.v, a.k) || overlap(a.k, b.v)) {
					return false, true, fmt.Sprintf("replacement %q (for %q) can form key %q across its boundary", b.v, b.k, a.k)
				}
			}
		}
	}
	return true, false, fmt.Sprintf("ReplaceAll over literal map %s (%d entries): no key occurs in another key or in another entry's replacement — replacements commute", id.Name, len(ents))
}
