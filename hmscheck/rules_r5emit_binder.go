package main

// R-binder-scope (r5emit): a construct that declares a name and then
// evaluates its block declares the name in a scope of its own.

import (
	"fmt"
	"go/ast"
	"go/types"
	"sort"
	"strings"
)

func init() {
	register(&Rule{ID: "R-binder-scope", Floor: 5, Run: ruleR5BinderScope,
		Doc: "binder scoping in the tree-walking phases (analyzer, interpreter; the compiler's twin is R-scope-binding): wherever a function declares a name in the CURRENT scope of a scope stack (a call of the declaring primitive — the function that stores an entry into the top element of the stack: addVar, addType) and afterwards, on the same path, evaluates a block of the construct (a call of the block evaluator — the function that takes a Block node), the declaration must happen in a scope that the function itself pushed before it on that path (scope depth relative to the function's entry >= 1 at the declaration). Otherwise the binder (catch variable, loop variable, parameter) is written into the scope that ENCLOSES the construct: it shadows / overwrites a same-named variable of the enclosing block and stays visible after the construct (analyzer and interpreter push the scope first and then declare; a block evaluated with its own fresh scope does not contain the binder). Necessary for C11/C04/C03: `let e = 1; try { throw(..) } catch e { } ; e` must still be 1"})
}

func ruleR5BinderScope(c *Ctx) []Obligation {
	r2LoopCtx = c
	stacks := r4emScopeStacks(c)
	var obs []Obligation
	nStacks := 0
	for _, st := range stacks {
		if strings.HasSuffix(st.owner, "/compiler") {
			continue // R-scope-binding
		}
		fns := vmFuncs(c, st.owner)
		byObj := map[*types.Func]*vmFn{}
		for _, fn := range fns {
			if obj, _ := fn.info.Defs[fn.fd.Name].(*types.Func); obj != nil {
				byObj[obj] = fn
			}
		}
		// declaring primitives: store of a map entry reached through an element of the stack
		decl := map[*types.Func]bool{}
		for _, fn := range fns {
			obj, _ := fn.info.Defs[fn.fd.Name].(*types.Func)
			if obj == nil {
				continue
			}
			ast.Inspect(fn.fd.Body, func(n ast.Node) bool {
				as, ok := n.(*ast.AssignStmt)
				if !ok {
					return true
				}
				for _, l := range as.Lhs {
					ix, ok := ast.Unparen(l).(*ast.IndexExpr)
					if !ok {
						continue
					}
					if _, isMap := fn.info.TypeOf(ix.X).Underlying().(*types.Map); !isMap {
						continue
					}
					through := false
					ast.Inspect(ix.X, func(m ast.Node) bool {
						if ix2, ok := m.(*ast.IndexExpr); ok && vmFieldOf(fn.info, ix2.X) == st.field {
							through = true
						}
						return true
					})
					if through {
						decl[obj] = true
					}
				}
				return true
			})
		}
		// wrappers of a declaring primitive (`func (a *Analyzer) addVar(..) { a.currentModule.addVar(..) }`)
		for changed := true; changed; {
			changed = false
			for _, fn := range fns {
				obj, _ := fn.info.Defs[fn.fd.Name].(*types.Func)
				if obj == nil || decl[obj] || len(fn.fd.Body.List) != 1 {
					continue
				}
				var e ast.Expr
				switch y := fn.fd.Body.List[0].(type) {
				case *ast.ExprStmt:
					e = y.X
				case *ast.ReturnStmt:
					if len(y.Results) == 1 {
						e = y.Results[0]
					}
				}
				if call, ok := e.(*ast.CallExpr); ok && decl[CalleeOf(fn.info, call)] {
					decl[obj] = true
					changed = true
				}
			}
		}
		// block evaluators: functions with a parameter of a Block node type
		blockEval := map[*types.Func]bool{}
		for _, fn := range fns {
			obj, _ := fn.info.Defs[fn.fd.Name].(*types.Func)
			if obj == nil {
				continue
			}
			sig := obj.Type().(*types.Signature)
			for i := 0; i < sig.Params().Len(); i++ {
				if nt := vmNamed(sig.Params().At(i).Type()); nt != nil && strings.HasSuffix(nt.Obj().Name(), "Block") && nt.Obj().Pkg() != nil && strings.Contains(nt.Obj().Pkg().Path(), "/ast") {
					blockEval[obj] = true
				}
			}
		}
		if len(decl) == 0 || len(blockEval) == 0 {
			continue
		}
		nStacks++
		// scope-depth effect of a call: primitives, and straight-line helpers built from them
		memo := map[*types.Func]*int{}
		var delta func(g *types.Func, depth int) int
		delta = func(g *types.Func, depth int) int {
			if g == nil {
				return 0
			}
			if n, ok := st.roles.push[g]; ok {
				return n
			}
			if n, ok := st.roles.pop[g]; ok {
				return -n
			}
			if v, ok := memo[g]; ok {
				if v == nil {
					return 0
				}
				return *v
			}
			memo[g] = nil
			fn := byObj[g]
			if fn == nil || depth > 3 || len(fn.fd.Body.List) > 12 {
				return 0
			}
			// a helper whose scope primitives all sit in straight-line top-level statements (expression
			// statements, assignments, the return) has that net effect for its caller — `enterFrame()`
			// replaces the scope list and pushes one scope: +1; compound statements may only contain
			// calls without an effect on the depth, otherwise the helper is not summarised
			d := 0
			for _, s := range fn.fd.Body.List {
				straight := false
				switch s.(type) {
				case *ast.ExprStmt, *ast.AssignStmt, *ast.ReturnStmt, *ast.DeclStmt, *ast.IncDecStmt:
					straight = true
				}
				sum, mixed := 0, false
				ast.Inspect(s, func(n ast.Node) bool {
					switch x := n.(type) {
					case *ast.FuncLit:
						return false
					case *ast.CallExpr:
						if k := delta(CalleeOf(fn.info, x), depth+1); k != 0 {
							sum += k
							if !straight {
								mixed = true
							}
						}
					}
					return true
				})
				if mixed {
					memo[g] = nil
					return 0
				}
				d += sum
			}
			memo[g] = &d
			return d
		}
		for _, fn := range fns {
			obj, _ := fn.info.Defs[fn.fd.Name].(*types.Func)
			if obj == nil || decl[obj] || blockEval[obj] {
				continue
			}
			info := fn.info
			hasD, hasB := false, false
			ast.Inspect(fn.fd.Body, func(n ast.Node) bool {
				if call, ok := n.(*ast.CallExpr); ok {
					g := CalleeOf(info, call)
					if decl[g] {
						hasD = true
					}
					if blockEval[g] {
						hasB = true
					}
				}
				return true
			})
			if !hasD || !hasB {
				continue
			}
			relevant := func(n ast.Node) bool {
				call, ok := n.(*ast.CallExpr)
				if !ok {
					return false
				}
				g := CalleeOf(info, call)
				if g == nil {
					if id, ok := call.Fun.(*ast.Ident); ok {
						if b, isB := info.Uses[id].(*types.Builtin); isB && b.Name() == "panic" {
							return true
						}
					}
					return false
				}
				return decl[g] || blockEval[g] || delta(g, 0) != 0
			}
			res := vmWalk(vmWalkOpts{fn: fn, correlate: true, replace: vmSlicer(relevant), maxPaths: 50000})
			if res.overflow {
				obs = append(obs, Obligation{Key: fn.name + "|<paths>", Pos: c.Pos(fn.fd.Pos()), Status: Undecided, Detail: "path cap exceeded"})
				continue
			}
			type verdict struct {
				call  *ast.CallExpr
				bad   []string
				paths int
			}
			verdicts := map[*ast.CallExpr]*verdict{}
			var order []*ast.CallExpr
			for i := range res.paths {
				p := &res.paths[i]
				if p.o.kind == cPanic {
					continue
				}
				d := 0
				type pend struct {
					call  *ast.CallExpr
					depth int
				}
				var open []pend
				for _, e := range p.ev {
					if e.K != evCall || e.Fn == nil || e.Deferred {
						continue
					}
					switch {
					case decl[e.Fn]:
						open = append(open, pend{e.Call, d})
					case blockEval[e.Fn]:
						for _, pd := range open {
							v := verdicts[pd.call]
							if v == nil {
								v = &verdict{call: pd.call}
								verdicts[pd.call] = v
								order = append(order, pd.call)
							}
							v.paths++
							if pd.depth < 1 {
								v.bad = append(v.bad, fmt.Sprintf("path [%s]: the name is declared @%s at the scope depth the function was entered with, then the construct's block is evaluated @%s", vmTrunc(p.decisions(), 160), c.Pos(pd.call.Pos()), c.Pos(e.Pos)))
							}
						}
						open = nil
					default:
						d += delta(e.Fn, 0)
					}
				}
			}
			sort.Slice(order, func(i, j int) bool { return order[i].Pos() < order[j].Pos() })
			count := map[string]int{}
			for _, call := range order {
				v := verdicts[call]
				arg := "?"
				if len(call.Args) > 0 {
					arg = vmTrunc(exprStr(call.Args[0]), 50)
				}
				k := fmt.Sprintf("%s|%s(%s)", fn.name, CalleeOf(info, call).Name(), arg)
				count[k]++
				if count[k] > 1 {
					k += fmt.Sprintf(" #%d", count[k])
				}
				ob := Obligation{Key: k + "|declared in a scope the construct pushed itself, before its block is evaluated", Pos: c.Pos(call.Pos()), Nontrivial: true}
				if len(v.bad) > 0 {
					bad := vmUniq(v.bad)
					sort.Slice(bad, func(i, j int) bool { return len(bad[i]) < len(bad[j]) })
					if len(bad) > 2 {
						bad = bad[:2]
					}
					ob.Status = Violated
					ob.Detail = strings.Join(bad, " | ") + fmt.Sprintf(". The binder lands in the scope that encloses the construct (stack %s): it overwrites / shadows a same-named variable there and survives the construct (`let e = 1; try { throw(\"x\") } catch e { }; e` no longer yields 1); a block that opens its own scope does not see it as its own", r4emStackName(st))
				} else {
					ob.Status, ob.Detail = Discharged, fmt.Sprintf("%d path(s): a scope push of this function precedes the declaration", v.paths)
				}
				obs = append(obs, ob)
			}
		}
	}
	if nStacks == 0 {
		obs = append(obs, Obligation{Key: "binder sites", Status: Undecided, Detail: "no scope stack with a declaring primitive and a block evaluator found: re-anchor the rule"})
	}
	return obs
}
