#!/bin/sh
# ./check.sh <property id> quick|thorough
# Static check of one property against /repo's current working tree.
# exit 0 = every obligation discharged (or listed as a known finding);
# exit 1 = VIOLATION line(s) printed; exit 2 = the check itself is broken.
cd "$(dirname "$0")" || exit 2
export GOFLAGS=-mod=mod GOPROXY=off GOSUMDB=off GOTOOLCHAIN=local GOWORK=off
ID="$1"; TIER="${2:-${VERIF_TIER:-quick}}"
if [ ! -x bin/hmscheck ] || [ -n "$(find hmscheck -name '*.go' -newer bin/hmscheck 2>/dev/null | head -1)" ]; then
  ./setup.sh >/dev/null || exit 2
fi
exec ./bin/hmscheck -prop "$ID" -tier "$TIER" -repo "${HMS_REPO:-/repo}" -verif "$(pwd)"
